(** * Model refines Spec: every operation of a contract-respecting history yields the Spec's result
      and re-establishes the relation.  For all lengths, all states, all histories. *)
From Coq Require Import List Arith NArith Bool Lia.
Import ListNotations.
Require Import MRB.Base.Ring MRB.Base.ListAux MRB.Model.Types MRB.Model.Seq MRB.Spec.Pipe.
Require Import MRB.Proofs.Rel MRB.Proofs.TapeFacts.

Local Ltac inv H := inversion H; subst; clear H.

(** (p + j) mod len without wrap *)
Lemma mod_plus_small len p j : 0 < len -> p mod len + j < len -> (p + j) mod len = p mod len + j.
Proof.
  intros Hl H. rewrite <- wadd_mod by lia. unfold wadd.
  destruct (len <=? p mod len + j) eqn:E; [apply Nat.leb_le in E; lia | reflexivity].
Qed.

Lemma mod_plus_wrap len p j : 0 < len -> j <= len -> len <= p mod len + j -> (p + j) mod len = p mod len + j - len.
Proof.
  intros Hl Hj H. rewrite <- wadd_mod by lia. unfold wadd.
  destruct (len <=? p mod len + j) eqn:E; [reflexivity | apply Nat.leb_gt in E; lia].
Qed.

(** ** Remembered availability *)
Lemma rel_set_ca m a k c : Rel m a -> a_usable k a = true -> c <= a_avail k a -> Rel (set_ca k c m) a.
Proof.
  intros R U Hc. pose proof (usable_here _ _ U) as Hh.
  destruct R. constructor; simpl; auto.
  - intros j. unfold it_of in *. simpl. destruct (stage_eqb_spec k j) as [->|Hne].
    + rewrite tget_tset_same. simpl. apply r_here.
    + rewrite tget_tset_other by auto. apply r_here.
  - intros j Hj. unfold it_of in *. simpl. destruct (stage_eqb_spec k j) as [->|Hne].
    + rewrite tget_tset_same. simpl. destruct (r_it j Hj) as (A & B & _). auto.
    + rewrite tget_tset_other by auto. apply r_it; auto.
Qed.

Lemma rel_refresh m a k : Rel m a -> a_usable k a = true ->
  refresh k m = (set_ca k (a_avail k a) m, a_avail k a) /\ Rel (set_ca k (a_avail k a) m) a.
Proof.
  intros R U. unfold refresh. rewrite (fresh_eq m a k R U). split; auto.
  apply rel_set_ca; auto.
Qed.

Lemma rel_check m a k n g m' : Rel m a -> a_usable k a = true -> check k n m = (g, m') ->
  g = (n <=? a_avail k a) /\ Rel m' a.
Proof.
  intros R U. unfold check.
  destruct (r_it _ _ R k (usable_here _ _ U)) as (_ & _ & Hca).
  destruct (n <=? ca (it_of k m)) eqn:E.
  - intros H; inv H. apply Nat.leb_le in E. split; auto.
    symmetry. apply Nat.leb_le. lia.
  - destruct (rel_refresh m a k R U) as [-> R']. intros H; inv H. auto.
Qed.

(** ** Contents *)
Lemma slot_eq m a p : Rel m a -> tC (ppos a) <= p < tC (ppos a) + slen a ->
  slot m (p mod slen a) = a_cell p a.
Proof. intros R H. unfold slot, a_cell. apply (r_cont _ _ R); auto. Qed.

Lemma rel_upd m a p v : Rel m a -> tC (ppos a) <= p < tC (ppos a) + slen a ->
  Rel (set_slots (upd (p mod slen a) v (slots m)) m) (a_set_tape (upd p v (tape a)) a).
Proof.
  intros R Hp. pose proof (r_pos _ _ R) as Hl. pose proof (r_slots _ _ R) as Hs. pose proof (r_tape _ _ R) as Ht.
  pose proof (r_cont _ _ R) as Hc.
  destruct R. constructor; simpl; auto; try (rewrite upd_length; assumption).
  intros q Hq.
  rewrite (nth_upd 0%N) by (rewrite Hs; apply Nat.mod_upper_bound; lia).
  rewrite (nth_upd 0%N) by lia.
  destruct (Nat.eqb_spec p q) as [->|Hne].
  - rewrite Nat.eqb_refl. reflexivity.
  - destruct (Nat.eqb_spec (p mod slen a) (q mod slen a)) as [E|_]; [|apply Hc; auto].
    exfalso. apply Hne. apply (congr_eq (slen a)); auto; lia.
Qed.

(** the two raw slices of the ring = the contiguous window of the tape, cut at the physical end *)
Lemma rd_eq m a p n : Rel m a -> tC (ppos a) <= p -> p + n <= tC (ppos a) + slen a ->
  rd m (p mod slen a) n =
  (firstn (fst (chunk (slen a) (p mod slen a) n)) (sub (tape a) p n),
   skipn (fst (chunk (slen a) (p mod slen a) n)) (sub (tape a) p n)).
Proof.
  intros R Hlo Hhi. pose proof (r_pos _ _ R) as Hl. pose proof (r_slots _ _ R) as Hs.
  pose proof (r_tape _ _ R) as Ht. pose proof (r_cont _ _ R) as Hc.
  pose proof (Nat.mod_upper_bound p (slen a) ltac:(lia)) as Hi.
  unfold rd. rewrite (r_len _ _ R).
  assert (Hn : n <= slen a) by lia.
  unfold chunk. set (i := p mod slen a) in *. set (len := slen a) in *.
  destruct (len <=? i + n) eqn:E; [apply Nat.leb_le in E | apply Nat.leb_gt in E]; simpl fst.
  - f_equal.
    + apply (nth_ext_d 0%N).
      * rewrite sub_length by lia. rewrite firstn_length, sub_length by lia. lia.
      * rewrite sub_length by lia. intros j Hj.
        rewrite (nth_sub 0%N) by auto. rewrite (nth_firstn_lt 0%N) by auto.
        rewrite (nth_sub 0%N) by lia.
        rewrite <- Hc by lia. f_equal. subst i len. rewrite mod_plus_small; lia.
    + apply (nth_ext_d 0%N).
      * rewrite sub_length by lia. rewrite skipn_length, sub_length by lia. lia.
      * rewrite sub_length by lia. intros j Hj.
        rewrite (nth_sub 0%N) by auto. rewrite (nth_skipn_add 0%N).
        rewrite (nth_sub 0%N) by lia.
        rewrite <- Hc by lia. f_equal. simpl. replace (p + (len - i + j)) with (p + (len - i + j)) by lia.
        subst i len. rewrite mod_plus_wrap; lia.
  - f_equal.
    + apply (nth_ext_d 0%N).
      * rewrite sub_length by lia. rewrite firstn_length, sub_length by lia. lia.
      * rewrite sub_length by lia. intros j Hj.
        rewrite (nth_sub 0%N) by auto. rewrite (nth_firstn_lt 0%N) by auto.
        rewrite (nth_sub 0%N) by lia.
        rewrite <- Hc by lia. f_equal. subst i len. rewrite mod_plus_small; lia.
    + unfold sub at 1. simpl. rewrite skipn_all2; auto. rewrite sub_length; lia.
Qed.

(** ** Moving and publishing *)

(** contents of the window after the consumer published position [b'] *)
Lemma cont_after_publish m a b' : Rel m a -> tC (ppos a) <= b' <= tC (ppos a) + slen a ->
  forall q, b' <= q < b' + slen a ->
    nth (q mod slen a) (slots m) 0%N = nth q (extend (slen a) (b' + slen a - length (tape a)) (tape a)) 0%N.
Proof.
  intros R Hb q Hq. pose proof (r_pos _ _ R) as Hl. pose proof (r_tape _ _ R) as Ht. pose proof (r_cont _ _ R) as Hc.
  destruct (Nat.lt_ge_cases q (length (tape a))) as [Hlt|Hge].
  - rewrite extend_old by auto. apply Hc. lia.
  - rewrite extend_new by lia. rewrite <- Hc by lia.
    f_equal. replace q with (q - slen a + slen a) at 1 by lia. apply mod_add_len. lia.
Qed.

(** all the facts of [Rel], specialised to the three stages *)
Ltac explode R :=
  let Hl := fresh "Hl" in pose proof (r_pos _ _ R) as Hl;
  let Ht := fresh "Ht" in pose proof (r_tape _ _ R) as Ht;
  let Hs := fresh "Hs" in pose proof (r_slots _ _ R) as Hs;
  let Hn := fresh "Hn" in pose proof (r_len _ _ R) as Hn;
  pose proof (r_oC _ _ R); pose proof (r_oP _ _ R); pose proof (r_oS _ _ R);
  pose proof (r_oW _ _ R); pose proof (r_noW _ _ R);
  pose proof (r_it _ _ R P); pose proof (r_it _ _ R W); pose proof (r_it _ _ R C);
  pose proof (r_here _ _ R P); pose proof (r_here _ _ R W); pose proof (r_here _ _ R C);
  pose proof (r_att _ _ R P); pose proof (r_att _ _ R W); pose proof (r_att _ _ R C);
  pose proof (r_pub _ _ R P); pose proof (r_pub _ _ R W); pose proof (r_pub _ _ R C);
  pose proof (r_gone _ _ R P); pose proof (r_gone _ _ R W); pose proof (r_gone _ _ R C);
  pose proof (r_flag _ _ R); pose proof (r_hasW _ _ R); pose proof (r_heap _ _ R);
  pose proof (r_owned _ _ R); pose proof (r_freed _ _ R); pose proof (r_nid _ _ R);
  pose proof (r_cont _ _ R).

Ltac unf := unfold set_pub, set_ix_ca, set_ca, set_det, set_it, set_slots, set_nid, it_of,
  a_publish, a_set_lpos, a_set_det, a_set_tape, a_set_nid, a_limit, a_avail, a_succ in *; simpl in *.

Ltac fin := simpl in *; intros; repeat split; intros; (assumption || tauto || lia || congruence || (intuition (try lia; try congruence))).

Ltac per_stage := match goal with |- forall _ : stage, _ => let j := fresh "j" in intros j; destruct j; fin end.

(** an attached iterator moves to [p'] (<= its limit) and publishes; also: a detached one is attached / synced there *)
Lemma rel_move_publish m a k p' c :
  Rel m a -> a_usable k a = true ->
  tget k (lpos a) <= p' -> p' <= a_limit k a ->
  c <= a_limit k a - p' ->
  Rel (set_pub k (p' mod slen a) (set_ix_ca k (p' mod slen a) c m))
      (a_publish k p' (a_set_lpos k p' a)).
Proof.
  intros R U Hlo Hhi Hc.
  pose proof (usable_here _ _ U) as Hh.
  pose proof (window_bounds m a k R U) as [Wlo Whi].
  assert (HW : match k with W => shasW a = true | _ => True end) by (destruct k; auto; apply usable_W; auto).
  assert (CP : k = C -> forall q, p' <= q < p' + slen a ->
            nth (q mod slen a) (slots m) 0%N = nth q (extend (slen a) (p' + slen a - length (tape a)) (tape a)) 0%N).
  { intros -> q Hq. apply cont_after_publish; auto. pose proof (r_oC _ _ R). pose proof (r_oS _ _ R). pose proof (r_oP _ _ R).
    pose proof (r_pos _ _ R). unfold a_limit, a_succ in *. simpl in *. destruct (shasW a); lia. }
  explode R. clear R. unf.
  destruct k; simpl in *; constructor; unf; auto; try lia; try per_stage.
  all: try (rewrite extend_length; lia).
  all: try (destruct (shasW a); fin).
Qed.

(** a detached iterator moves locally inside its window *)
Lemma rel_local_move m a k p' c :
  Rel m a -> a_usable k a = true -> tget k (sdet a) = true ->
  tget k (ppos a) <= p' -> p' <= a_limit k a -> c <= a_limit k a - p' ->
  Rel (set_ix_ca k (p' mod slen a) c m) (a_set_lpos k p' a).
Proof.
  intros R U D Hlo Hhi Hc.
  pose proof (usable_here _ _ U) as Hh.
  pose proof (window_bounds m a k R U) as [Wlo Whi].
  assert (HW : match k with W => shasW a = true | _ => True end) by (destruct k; auto; apply usable_W; auto).
  explode R. clear R. unf.
  destruct k; simpl in *; constructor; unf; auto; try lia; try per_stage.
  all: try (destruct (shasW a); fin).
Qed.

Lemma set_ix_ca_same k m : set_ix_ca k (ix (it_of k m)) (ca (it_of k m)) m = m.
Proof. destruct m as [? ? ? ? [[] [] []]]; destruct k; reflexivity. Qed.

Lemma a_set_lpos_same k a : a_set_lpos k (tget k (lpos a)) a = a.
Proof. destruct a as [? ? ? []]; destruct k; reflexivity. Qed.

(** [sync_index]: publish the local position *)
Lemma rel_publish m a k :
  Rel m a -> a_usable k a = true ->
  Rel (set_pub k (ix (it_of k m)) m) (a_publish k (tget k (lpos a)) a).
Proof.
  intros R U. pose proof (usable_here _ _ U) as Hh.
  destruct (r_it _ _ R k Hh) as (_ & Hix & Hca).
  pose proof (window_bounds m a k R U) as [Wlo Whi].
  pose proof (rel_move_publish m a k (tget k (lpos a)) (ca (it_of k m)) R U) as H.
  rewrite <- Hix in H. rewrite set_ix_ca_same, a_set_lpos_same in H.
  pose proof (r_oC _ _ R). pose proof (r_oP _ _ R). pose proof (r_oW _ _ R). pose proof (r_pos _ _ R).
  assert (HW : match k with W => shasW a = true | _ => True end) by (destruct k; auto; apply usable_W; auto).
  apply H; auto; unfold a_limit, a_avail, a_succ in *; destruct k; simpl in *; try lia; destruct (shasW a); intuition lia.
Qed.

Lemma rel_set_det m a k b :
  Rel m a -> a_usable k a = true -> (b = false -> tget k (lpos a) = tget k (ppos a)) ->
  Rel (set_det k b m) (a_set_det k b a).
Proof.
  intros R U Hb. pose proof (usable_here _ _ U) as Hh.
  explode R. clear R. unf.
  destruct k; simpl in *; constructor; unf; auto; try lia; try per_stage.
  all: try (destruct b; fin).
Qed.

Lemma rel_set_nid m a n : Rel m a -> Rel (set_nid n m) (a_set_nid n a).
Proof. intros R. destruct R. constructor; simpl; auto. Qed.

(** writing a run of values into the window *)
Lemma rel_write_tape m a sl' p vs :
  Rel m a -> tC (ppos a) <= p -> p + length vs <= tC (ppos a) + slen a ->
  length sl' = slen a ->
  (forall q, tC (ppos a) <= q < tC (ppos a) + slen a ->
     nth (q mod slen a) sl' 0%N = nth q (write (tape a) p vs) 0%N) ->
  Rel (set_slots sl' m) (a_set_tape (write (tape a) p vs) a).
Proof.
  intros R Hlo Hhi Hlen Hc. destruct R. constructor; simpl; auto.
  rewrite write_length; auto.
Qed.

Ltac bt e := replace e with true by (symmetry; first [apply Nat.leb_le | apply Nat.ltb_lt]; lia).
Ltac bf e := replace e with false by (symmetry; first [apply Nat.leb_gt | apply Nat.ltb_ge]; lia).

(** pointwise view of the two-slice write on the ring *)
Lemma nth_wr_ring (l : list N) len i vs j :
  length l = len -> i < len -> j < len -> length vs <= len ->
  nth j (let '(h, t) := chunk len i (length vs) in write (write l i (firstn h vs)) 0 (skipn h vs)) 0%N =
  if dist len i j <? length vs then nth (dist len i j) vs 0%N else nth j l 0%N.
Proof.
  intros Hl Hi Hj Hn. unfold chunk, dist. set (n := length vs) in *.
  destruct (Nat.le_gt_cases len (i + n)) as [E|E].
  - bt (len <=? i + n).
    rewrite (nth_write 0%N) by (rewrite write_length, skipn_length; lia).
    rewrite (nth_write 0%N) by (rewrite firstn_length; lia).
    rewrite skipn_length, firstn_length. fold n.
    replace (Nat.min (len - i) n) with (len - i) by lia.
    bt (0 <=? j).
    destruct (Nat.le_gt_cases i j) as [E1|E1].
    + bt (i <=? j). bf (j <? 0 + (n - (len - i))). bt (j <? i + (len - i)). bt (j - i <? n). simpl.
      apply nth_firstn_lt. lia.
    + bf (i <=? j). simpl.
      destruct (Nat.lt_ge_cases (len - i + j) n) as [E2|E2].
      * bt (len - i + j <? n). bt (j <? n - (len - i)).
        rewrite (nth_skipn_add 0%N). f_equal. lia.
      * bf (len - i + j <? n). bf (j <? n - (len - i)). reflexivity.
  - bf (len <=? i + n).
    replace (firstn n vs) with vs by (symmetry; apply firstn_all).
    replace (skipn n vs) with (@nil N) by (symmetry; apply skipn_all). simpl.
    rewrite (nth_write 0%N) by lia. fold n.
    destruct (Nat.le_gt_cases i j) as [E1|E1].
    + bt (i <=? j). simpl.
      destruct (Nat.lt_ge_cases j (i + n)) as [E2|E2].
      * bt (j <? i + n). bt (j - i <? n). reflexivity.
      * bf (j <? i + n). bf (j - i <? n). reflexivity.
    + bf (i <=? j). simpl. bf (len - i + j <? n). reflexivity.
Qed.

Lemma dist_mod_back len p q : 0 < len -> q < p -> p <= q + len ->
  dist len (p mod len) (q mod len) = q + len - p.
Proof.
  intros Hl H1 H2. rewrite <- (mod_add_len len q Hl). apply dist_mod; lia.
Qed.

Lemma wr_cont m a p vs : Rel m a -> tC (ppos a) <= p -> p + length vs <= tC (ppos a) + slen a ->
  forall q, tC (ppos a) <= q < tC (ppos a) + slen a ->
    nth (q mod slen a) (slots (wr m (p mod slen a) vs)) 0%N = nth q (write (tape a) p vs) 0%N.
Proof.
  intros R Hlo Hhi q Hq.
  pose proof (r_pos _ _ R) as Hl. pose proof (r_slots _ _ R) as Hs.
  pose proof (r_tape _ _ R) as Ht. pose proof (r_cont _ _ R) as Hc.
  pose proof (Nat.mod_upper_bound p (slen a) ltac:(lia)) as Hi.
  pose proof (Nat.mod_upper_bound q (slen a) ltac:(lia)) as Hqi.
  unfold wr. rewrite (r_len _ _ R).
  transitivity (nth (q mod slen a)
    (let '(h, t) := chunk (slen a) (p mod slen a) (length vs) in
     write (write (slots m) (p mod slen a) (firstn h vs)) 0 (skipn h vs)) 0%N).
  { destruct (chunk (slen a) (p mod slen a) (length vs)). reflexivity. }
  rewrite nth_wr_ring by lia.
  rewrite (nth_write 0%N) by lia.
  destruct (Nat.lt_ge_cases q p) as [Hqp|Hqp].
  - rewrite dist_mod_back by lia.
    replace (q + slen a - p <? length vs) with false by (symmetry; apply Nat.ltb_ge; lia).
    replace ((p <=? q) && (q <? p + length vs)) with false by (symmetry; apply andb_false_iff; left; apply Nat.leb_gt; lia).
    apply Hc; auto.
  - rewrite dist_mod by lia.
    replace (p <=? q) with true by (symmetry; apply Nat.leb_le; lia). simpl.
    destruct (q - p <? length vs) eqn:E; [apply Nat.ltb_lt in E | apply Nat.ltb_ge in E].
    + replace (q <? p + length vs) with true by (symmetry; apply Nat.ltb_lt; lia). reflexivity.
    + replace (q <? p + length vs) with false by (symmetry; apply Nat.ltb_ge; lia). apply Hc; auto.
Qed.

(** ** Operations *)
Definition refines (r : res) (r' : ares) : Prop := snd r = snd r' /\ Rel (fst r) (fst r').

Lemma ev_eq m a l : Rel m a -> ev m l = a_ev a l.
Proof. intros R. unfold ev, a_ev. rewrite (r_owned _ _ R). reflexivity. Qed.

Lemma ix_eq m a k : Rel m a -> a_usable k a = true -> ix (it_of k m) = tget k (lpos a) mod slen a.
Proof. intros R U. destruct (r_it _ _ R k (usable_here _ _ U)) as (_ & H & _). exact H. Qed.

Lemma grant_refines m a k n : Rel m a -> a_usable k a = true -> refines (grant k n m) (a_grant k n a).
Proof.
  intros R U. unfold grant, a_grant.
  destruct (check k n m) as [g m1] eqn:Ec.
  destruct (rel_check _ _ _ _ _ _ R U Ec) as [-> R1].
  destruct (n <=? a_avail k a) eqn:E; [apply Nat.leb_le in E|]; [|split; simpl; auto].
  pose proof (window_bounds m1 a k R1 U) as [Wlo Whi].
  rewrite (ix_eq m1 a k R1 U).
  rewrite (rd_eq m1 a (tget k (lpos a)) n R1) by lia.
  unfold a_window. destruct (chunk (slen a) (tget k (lpos a) mod slen a) n) as [h t]. simpl.
  split; simpl; auto.
Qed.

Lemma grant_one_refines m a k : Rel m a -> a_usable k a = true -> refines (grant_one k m) (a_grant_one k a).
Proof.
  intros R U. unfold grant_one, a_grant_one.
  destruct (check k 1 m) as [g m1] eqn:Ec.
  destruct (rel_check _ _ _ _ _ _ R U Ec) as [-> R1].
  destruct (1 <=? a_avail k a) eqn:E; [apply Nat.leb_le in E|]; [|split; simpl; auto].
  pose proof (window_bounds m1 a k R1 U) as [Wlo Whi].
  rewrite (ix_eq m1 a k R1 U). rewrite (slot_eq m1 a) by (auto; lia).
  split; simpl; auto.
Qed.

(** attached advance by [n <= availability] *)
Lemma advance_refines m a k n : Rel m a -> a_usable k a = true -> n <= a_avail k a ->
  Rel (advance k n m) (a_advance k n a).
Proof.
  intros R U Hn. pose proof (usable_here _ _ U) as Hh.
  destruct (r_it _ _ R k Hh) as (Hd & Hix & Hca).
  pose proof (r_pos _ _ R) as Hl.
  unfold advance, a_advance. rewrite Hd, Hix, (r_len _ _ R).
  rewrite wadd_mod by (pose proof (window_bounds m a k R U); lia).
  assert (L : tget k (lpos a) + a_avail k a = a_limit k a).
  { pose proof (r_oC _ _ R). pose proof (r_oP _ _ R). pose proof (r_oW _ _ R).
    assert (HW : match k with W => shasW a = true | _ => True end) by (destruct k; auto; apply usable_W; auto).
    unfold a_limit, a_avail, a_succ in *. destruct k; simpl in *; try lia; destruct (shasW a); intuition lia. }
  destruct (tget k (sdet a)) eqn:D.
  - apply rel_local_move; auto; try lia.
    pose proof (r_oC _ _ R). pose proof (r_oP _ _ R). pose proof (r_oW _ _ R).
    assert (HW : match k with W => shasW a = true | _ => True end) by (destruct k; auto; apply usable_W; auto).
    destruct k; simpl in *; try lia; intuition lia.
  - apply rel_move_publish; auto; lia.
Qed.

Lemma push_refines m a md v : Rel m a -> a_usable P a = true -> refines (push md v m) (a_push md v a).
Proof.
  intros R U. unfold push, a_push.
  destruct (check P 1 m) as [g m1] eqn:Ec.
  destruct (rel_check _ _ _ _ _ _ R U Ec) as [-> R1].
  destruct (1 <=? a_avail P a) eqn:E; [apply Nat.leb_le in E|]; [|split; simpl; auto].
  pose proof (window_bounds m1 a P R1 U) as [Wlo Whi].
  rewrite (ix_eq m1 a P R1 U). rewrite (slot_eq m1 a) by (auto; lia).
  assert (R2 : Rel (set_slots (upd (tget P (lpos a) mod slen a) v (slots m1)) m1) (a_set_tape (upd (tget P (lpos a)) v (tape a)) a))
    by (apply rel_upd; auto; lia).
  pose proof (advance_refines _ _ P 1 R2 U E) as R3.
  split; simpl; auto. f_equal. apply ev_eq; auto.
Qed.

Lemma pop_refines m a mv : Rel m a -> a_usable C a = true -> refines (pop mv m) (a_pop mv a).
Proof.
  intros R U. unfold pop, a_pop.
  destruct (check C 1 m) as [g m1] eqn:Ec.
  destruct (rel_check _ _ _ _ _ _ R U Ec) as [-> R1].
  destruct (1 <=? a_avail C a) eqn:E; [apply Nat.leb_le in E|]; [|split; simpl; auto].
  pose proof (window_bounds m1 a C R1 U) as [Wlo Whi].
  rewrite (ix_eq m1 a C R1 U). rewrite (slot_eq m1 a) by (auto; lia).
  destruct mv.
  - assert (R2 : Rel (set_slots (upd (tget C (lpos a) mod slen a) 0%N (slots m1)) m1) (a_set_tape (upd (tget C (lpos a)) 0%N (tape a)) a))
      by (apply rel_upd; auto; lia).
    pose proof (advance_refines _ _ C 1 R2 U E) as R3.
    split; simpl; auto. f_equal. apply ev_eq; auto.
  - pose proof (advance_refines _ _ C 1 R1 U E) as R3.
    split; simpl; auto. f_equal. apply ev_eq; auto.
Qed.

Lemma wr_as_set m i vs : wr m i vs = set_slots (slots (wr m i vs)) m.
Proof. unfold wr. destruct (chunk (mlen m) i (length vs)). reflexivity. Qed.

Lemma wr_length m i vs : length (slots (wr m i vs)) = length (slots m).
Proof. unfold wr. destruct (chunk (mlen m) i (length vs)). simpl. rewrite !write_length. reflexivity. Qed.

Lemma rel_wr m a p vs : Rel m a -> tC (ppos a) <= p -> p + length vs <= tC (ppos a) + slen a ->
  Rel (wr m (p mod slen a) vs) (a_set_tape (write (tape a) p vs) a).
Proof.
  intros R Hlo Hhi. rewrite wr_as_set. apply rel_write_tape; auto.
  - rewrite wr_length. apply (r_slots _ _ R).
  - apply wr_cont; auto.
Qed.

Lemma clones_refines m a vs : Rel m a ->
  fst (clones m vs) = fst (a_clones a vs) /\ Rel (snd (clones m vs)) (snd (a_clones a vs)) /\
  length (fst (clones m vs)) = length vs /\ tape (snd (a_clones a vs)) = tape a /\
  (forall k, a_usable k (snd (a_clones a vs)) = a_usable k a) /\
  (forall k, a_avail k (snd (a_clones a vs)) = a_avail k a) /\
  lpos (snd (a_clones a vs)) = lpos a /\ ppos (snd (a_clones a vs)) = ppos a /\ slen (snd (a_clones a vs)) = slen a.
Proof.
  intros R. unfold clones, a_clones. rewrite (r_owned _ _ R), (r_nid _ _ R).
  destruct (sowned a); simpl; repeat match goal with |- _ /\ _ => split end; auto.
  - apply rel_set_nid; auto.
  - apply ids_length.
Qed.

Lemma push_slice_refines m a md cl vs : Rel m a -> a_usable P a = true ->
  refines (push_slice md cl vs m) (a_push_slice md cl vs a).
Proof.
  intros R U. unfold push_slice, a_push_slice.
  destruct (check P (length vs) m) as [g m1] eqn:Ec.
  destruct (rel_check _ _ _ _ _ _ R U Ec) as [-> R1].
  destruct (length vs <=? a_avail P a) eqn:E; [apply Nat.leb_le in E|]; [|split; simpl; auto].
  pose proof (window_bounds m1 a P R1 U) as [Wlo Whi].
  rewrite (ix_eq m1 a P R1 U).
  rewrite (rd_eq m1 a (tget P (lpos a)) (length vs) R1) by lia.
  rewrite firstn_skipn.
  set (p := tget P (lpos a)) in *.
  destruct cl.
  - destruct (clones_refines m1 a vs R1) as (F & R2 & L & T & UU & AA & LP & PP & SL).
    destruct (clones m1 vs) as [news m2]. destruct (a_clones a vs) as [news' a2]. simpl in *. subst news'.
    assert (R3 : Rel (wr m2 (p mod slen a) news) (a_set_tape (write (tape a2) p news) a2)).
    { rewrite <- SL. apply rel_wr; auto; rewrite ?PP, ?SL; lia. }
    assert (R4 : Rel (advance P (length vs) (wr m2 (p mod slen a) news))
                     (a_advance P (length vs) (a_set_tape (write (tape a2) p news) a2))).
    { apply advance_refines; auto.
      - change (a_usable P a2 = true). rewrite (UU P). exact U.
      - change (length vs <= a_avail P a2). rewrite (AA P). exact E. }
    split; simpl; [|exact R4].
    rewrite T. f_equal. apply ev_eq. rewrite <- T. exact R4.
  - assert (R3 : Rel (wr m1 (p mod slen a) vs) (a_set_tape (write (tape a) p vs) a)) by (apply rel_wr; auto; lia).
    assert (R4 : Rel (advance P (length vs) (wr m1 (p mod slen a) vs))
                     (a_advance P (length vs) (a_set_tape (write (tape a) p vs) a))).
    { apply advance_refines; auto. }
    split; simpl; auto. f_equal. apply ev_eq; auto.
Qed.

Lemma extract_item_refines m a cl : Rel m a -> a_usable C a = true ->
  refines (extract_item cl m) (a_extract_item cl a).
Proof.
  intros R U. unfold extract_item, a_extract_item.
  destruct (check C 1 m) as [g m1] eqn:Ec.
  destruct (rel_check _ _ _ _ _ _ R U Ec) as [-> R1].
  destruct (1 <=? a_avail C a) eqn:E; [apply Nat.leb_le in E|]; [|split; simpl; auto].
  pose proof (window_bounds m1 a C R1 U) as [Wlo Whi].
  rewrite (ix_eq m1 a C R1 U). rewrite (slot_eq m1 a) by (auto; lia).
  set (v := a_cell (tget C (lpos a)) a).
  destruct cl.
  - destruct (clones_refines m1 a [v] R1) as (F & R2 & L & T & UU & AA & LP & PP & SL).
    destruct (clones m1 [v]) as [news m2]. destruct (a_clones a [v]) as [news' a2]. simpl in *. subst news'.
    assert (R4 : Rel (advance C 1 m2) (a_advance C 1 a2)).
    { apply advance_refines; auto. rewrite (UU C); auto. rewrite (AA C); auto. }
    split; simpl; auto. f_equal. apply ev_eq; auto.
  - assert (R4 : Rel (advance C 1 m1) (a_advance C 1 a)) by (apply advance_refines; auto).
    split; simpl; auto. f_equal. apply ev_eq; auto.
Qed.

Lemma extract_slice_refines m a cl n : Rel m a -> a_usable C a = true ->
  refines (extract_slice cl n m) (a_extract_slice cl n a).
Proof.
  intros R U. unfold extract_slice, a_extract_slice.
  destruct (check C n m) as [g m1] eqn:Ec.
  destruct (rel_check _ _ _ _ _ _ R U Ec) as [-> R1].
  destruct (n <=? a_avail C a) eqn:E; [apply Nat.leb_le in E|]; [|split; simpl; auto].
  pose proof (window_bounds m1 a C R1 U) as [Wlo Whi].
  rewrite (ix_eq m1 a C R1 U).
  rewrite (rd_eq m1 a (tget C (lpos a)) n R1) by lia.
  rewrite firstn_skipn.
  set (w := sub (tape a) (tget C (lpos a)) n).
  destruct cl.
  - destruct (clones_refines m1 a w R1) as (F & R2 & L & T & UU & AA & LP & PP & SL).
    destruct (clones m1 w) as [news m2]. destruct (a_clones a w) as [news' a2]. simpl in *. subst news'.
    assert (R4 : Rel (advance C n m2) (a_advance C n a2)).
    { apply advance_refines; auto. rewrite (UU C); auto. rewrite (AA C); auto. }
    split; simpl; auto. f_equal. apply ev_eq; auto.
  - assert (R4 : Rel (advance C n m1) (a_advance C n a)) by (apply advance_refines; auto).
    split; simpl; auto. f_equal. apply ev_eq; auto.
Qed.

Lemma poke_refines m a md k off v : Rel m a -> a_usable k a = true -> off < a_avail k a ->
  refines (poke md k off v m) (a_poke md k off v a).
Proof.
  intros R U H. unfold poke, a_poke.
  pose proof (window_bounds m a k R U) as [Wlo Whi]. pose proof (r_pos _ _ R) as Hl.
  rewrite (ix_eq m a k R U), (r_len _ _ R).
  rewrite wadd_mod by lia. rewrite (slot_eq m a) by (auto; lia).
  assert (R2 : Rel (set_slots (upd ((tget k (lpos a) + off) mod slen a) v (slots m)) m)
                   (a_set_tape (upd (tget k (lpos a) + off) v (tape a)) a)) by (apply rel_upd; auto; lia).
  split; simpl; auto. f_equal. apply ev_eq; auto.
Qed.

Lemma edit_refines m a k off d : Rel m a -> a_usable k a = true -> off < a_avail k a ->
  refines (edit k off d m) (a_edit k off d a).
Proof.
  intros R U H. unfold edit, a_edit.
  pose proof (window_bounds m a k R U) as [Wlo Whi]. pose proof (r_pos _ _ R) as Hl.
  rewrite (ix_eq m a k R U), (r_len _ _ R).
  rewrite wadd_mod by lia. rewrite (slot_eq m a) by (auto; lia).
  split; simpl; auto. apply rel_upd; auto; lia.
Qed.

(** ** Ring contents in slot order *)
Lemma dist_lt len r j : r < len -> j < len -> dist len r j < len.
Proof. unfold dist; intros; destruct (r <=? j) eqn:E; [apply Nat.leb_le in E | apply Nat.leb_gt in E]; lia. Qed.

Lemma locate_mod len b j : 0 < len -> j < len -> (b + dist len (b mod len) j) mod len = j.
Proof.
  intros Hl Hj. pose proof (Nat.mod_upper_bound b len ltac:(lia)) as Hb.
  pose proof (dist_lt len (b mod len) j Hb Hj) as Hd.
  rewrite <- wadd_mod by lia.
  unfold wadd, dist in *. set (r := b mod len) in *.
  destruct (r <=? j) eqn:E1; [apply Nat.leb_le in E1 | apply Nat.leb_gt in E1].
  - bf (len <=? r + (j - r)). lia.
  - bt (len <=? r + (len - r + j)). lia.
Qed.

Lemma slots_ring m a : Rel m a -> slots m = a_ring a.
Proof.
  intros R. pose proof (r_pos _ _ R) as Hl. pose proof (r_slots _ _ R) as Hs. pose proof (r_cont _ _ R) as Hc.
  unfold a_ring. cbv zeta.
  set (f := fun j => nth (tC (ppos a) + dist (slen a) (tC (ppos a) mod slen a) j) (tape a) 0%N).
  apply nth_ext with (d := 0%N) (d' := f 0).
  - rewrite map_length, seq_length. auto.
  - intros j Hj. rewrite Hs in Hj.
    rewrite (map_nth f (seq 0 (slen a)) 0 j).
    rewrite seq_nth by auto. simpl. unfold f.
    pose proof (Nat.mod_upper_bound (tC (ppos a)) (slen a) ltac:(lia)) as Hb.
    pose proof (dist_lt (slen a) (tC (ppos a) mod slen a) j Hb Hj).
    rewrite <- Hc by lia. f_equal. symmetry. apply locate_mod; auto.
Qed.

Lemma drop_iter_refines m a k : Rel m a -> a_usable k a = true ->
  refines (drop_iter k m) (a_drop_iter k a).
Proof.
  intros R U. unfold drop_iter, a_drop_iter.
  pose proof (usable_here _ _ U) as Hh. pose proof (slots_ring m a R) as SR.
  assert (HW : match k with W => shasW a = true | _ => True end) by (destruct k; auto; apply usable_W; auto).
  rewrite (r_flag _ _ R), (r_heap _ _ R), (r_freed _ _ R).
  split; simpl.
  - f_equal. unfold ev, a_ev. simpl. rewrite (r_owned _ _ R), SR. reflexivity.
  - clear SR. explode R. clear R. unf.
    destruct k; simpl in *; constructor; unf; auto; try lia; try per_stage.
    all: try (destruct (shasW a); fin).
Qed.

Lemma no_iters_eq m a : Rel m a -> no_iters m = a_no_iters a.
Proof.
  intros R. unfold no_iters, a_no_iters.
  pose proof (r_here _ _ R P) as H1. pose proof (r_here _ _ R W) as H2. pose proof (r_here _ _ R C) as H3.
  unfold it_of in *. simpl in *. rewrite H1, H2, H3. reflexivity.
Qed.

Lemma split_refines m a w : Rel m a -> Rel (do_split w m) (a_split w a).
Proof.
  intros R. pose proof (slots_ring m a R) as SR. pose proof (r_slots _ _ R) as Hs. pose proof (r_pos _ _ R) as Hl.
  unfold do_split, a_split. rewrite <- SR.
  explode R. clear R. unf.
  constructor; unf; auto; try lia; try per_stage.
  all: try (rewrite Nat.mod_0_l by lia).
  all: try (destruct w; simpl; auto; try lia; fail).
  - match goal with H : flag m = sflag a |- _ => rewrite H end. reflexivity.
  - intros p Hp. rewrite Nat.mod_small by lia. reflexivity.
Qed.

Lemma freed_refines m a :
  Rel m a ->
  Rel (mkM (mlen m) (slots m) (pub m) (flag m) (its m) (hasW m) (heap m) (owned m) true (nid m))
      (mkS (slen a) (tape a) (ppos a) (lpos a) (sdet a) (shere a) (sflag a) (shasW a) (sheap a) (sowned a) true (snid a)).
Proof. intros R. destruct R. constructor; simpl; auto. Qed.

Lemma refines_bad m a : Rel m a -> refines (bad m) (a_bad a).
Proof. intros; split; simpl; auto. Qed.

Lemma refines_ret m' a' o : Rel m' a' -> refines (ret m' o) (a_ret a' o).
Proof. intros; split; simpl; auto. Qed.

Local Ltac gd R :=
  rewrite ?(usable_eq _ _ _ R), ?(attached_eq _ _ _ R), ?(detached_eq _ _ _ R), ?(plain_eq _ _ R).

Lemma attached_usable a k : a_attached k a = true -> a_usable k a = true.
Proof. unfold a_attached. intros H. apply andb_prop in H. tauto. Qed.
Lemma detached_usable a k : a_detached k a = true -> a_usable k a = true.
Proof. unfold a_detached. intros H. apply andb_prop in H. tauto. Qed.
Lemma attached_det a k : a_attached k a = true -> tget k (sdet a) = false.
Proof. unfold a_attached. intros H. apply andb_prop in H as [_ H]. apply negb_true_iff in H. exact H. Qed.
Lemma detached_det a k : a_detached k a = true -> tget k (sdet a) = true.
Proof. unfold a_detached. intros H. apply andb_prop in H as [_ H]. exact H. Qed.

(** limits and positions *)
Lemma limit_avail m a k : Rel m a -> a_usable k a = true ->
  tget k (lpos a) + a_avail k a = a_limit k a /\ tget k (ppos a) <= tget k (lpos a) /\ tget k (lpos a) <= a_limit k a.
Proof.
  intros R U.
  pose proof (r_oC _ _ R). pose proof (r_oP _ _ R). pose proof (r_oW _ _ R). pose proof (r_pos _ _ R).
  assert (HW : match k with W => shasW a = true | _ => True end) by (destruct k; auto; apply usable_W; auto).
  unfold a_limit, a_avail, a_succ in *. destruct k; simpl in *; try lia; destruct (shasW a); intuition lia.
Qed.

Lemma succ_eq m a k : Rel m a -> succ_idx k m = a_succ k a mod slen a.
Proof.
  intros R. pose proof (r_pub _ _ R P) as EP. pose proof (r_pub _ _ R W) as EW. pose proof (r_pub _ _ R C) as EC.
  pose proof (r_pos _ _ R) as Hl. simpl in *.
  unfold succ_idx, a_succ. rewrite (r_hasW _ _ R). destruct k.
  - rewrite EC. symmetry. apply mod_add_len. lia.
  - exact EP.
  - destruct (shasW a); auto.
Qed.

Theorem step_refines m a o :
  Rel m a -> ok_op a o = true -> refines (step m o) (sstep a o).
Proof.
  intros R OK.
  destruct o; cbn [step sstep ok_op] in OK |- *; gd R;
    try (match goal with |- context[if ?g then _ else _] => destruct g eqn:G end;
         [| try (destruct k); apply refines_bad; exact R]).
  - (* Avail *)
    destruct (rel_refresh m a k R G) as [-> R1]. apply refines_ret; auto.
  - (* Advance *)
    apply Nat.leb_le in OK. apply refines_ret. apply advance_refines; auto.
  - apply grant_one_refines; auto.
  - apply grant_refines; auto.
  - (* GetAvail *)
    destruct (rel_refresh m a k R G) as [-> R1].
    destruct (a_avail k a) eqn:E; [apply refines_ret; auto|].
    pose proof (grant_refines _ _ k (S n) R1 G) as H. unfold a_grant in H. rewrite E in H.
    rewrite Nat.leb_refl in H. exact H.
  - (* GetMult *)
    destruct (rel_refresh m a k R G) as [-> R1].
    destruct r; [apply refines_ret; auto|].
    destruct (a_avail k a - a_avail k a mod S r) eqn:E; [apply refines_ret; auto|].
    pose proof (grant_refines _ _ k (S n) R1 G) as H. unfold a_grant in H.
    replace (S n <=? a_avail k a) with true in H by (symmetry; apply Nat.leb_le; lia). exact H.
  - apply Nat.ltb_lt in OK. apply poke_refines; auto.
  - apply Nat.ltb_lt in OK. apply poke_refines; auto.
  - apply Nat.ltb_lt in OK. apply andb_prop in G as [G _]. apply edit_refines; auto.
  - apply push_refines; auto. apply attached_usable; auto.
  - apply push_refines; auto. apply attached_usable; auto.
  - apply andb_prop in G as [G _]. apply push_slice_refines; auto. apply attached_usable; auto.
  - apply andb_prop in G as [G _]. apply push_slice_refines; auto. apply attached_usable; auto.
  - apply push_slice_refines; auto. apply attached_usable; auto.
  - apply push_slice_refines; auto. apply attached_usable; auto.
  - apply grant_one_refines; auto. apply attached_usable; auto.
  - (* PeekAvail *)
    pose proof (attached_usable _ _ G) as U.
    destruct (rel_refresh m a C R U) as [-> R1].
    pose proof (grant_refines _ _ C (a_avail C a) R1 U) as H. unfold a_grant in H.
    rewrite Nat.leb_refl in H. exact H.
  - apply pop_refines; auto. apply attached_usable; auto.
  - apply pop_refines; auto. apply attached_usable; auto.
  - apply andb_prop in G as [G _]. apply extract_item_refines; auto. apply attached_usable; auto.
  - apply extract_item_refines; auto. apply attached_usable; auto.
  - apply andb_prop in G as [G _]. apply extract_slice_refines; auto. apply attached_usable; auto.
  - apply extract_slice_refines; auto. apply attached_usable; auto.
  - (* Reset *)
    destruct k; [apply refines_bad; auto| |].
    + pose proof (attached_usable _ _ G) as U. destruct (limit_avail m a W R U) as (L1 & L2 & L3).
      apply refines_ret.
      rewrite (succ_eq m a W R).
      apply rel_move_publish; auto; unfold a_limit in *; lia.
    + pose proof (attached_usable _ _ G) as U. destruct (limit_avail m a C R U) as (L1 & L2 & L3).
      apply refines_ret.
      rewrite (succ_eq m a C R).
      apply rel_move_publish; auto; unfold a_limit in *; lia.
  - (* Detach *)
    apply refines_ret. apply rel_set_det; auto. apply attached_usable; auto. discriminate.
  - (* Attach *)
    pose proof (detached_usable _ _ G) as U.
    apply refines_ret.
    assert (R1 : Rel (set_pub k (ix (it_of k m)) m) (a_publish k (tget k (lpos a)) a)) by (apply rel_publish; auto).
    apply (rel_set_det _ _ k false R1).
    + unfold a_usable, a_publish in *. destruct k; simpl in *; exact U.
    + intros _. unfold a_publish. destruct k; reflexivity.
  - (* Sync *)
    apply refines_ret. apply rel_publish; auto. apply detached_usable; auto.
  - (* SetIndex *)
    pose proof (detached_usable _ _ G) as U. pose proof (detached_det _ _ G) as D.
    apply andb_prop in OK as [O1 O2]. apply Nat.ltb_lt in O1. apply Nat.leb_le in O2.
    apply refines_ret.
    replace i with (a_locate k i a mod slen a) at 1 by (unfold a_locate; apply locate_mod; auto; apply (r_pos _ _ R)).
    apply rel_local_move; auto; try lia. unfold a_locate. lia.
  - (* GoBack *)
    pose proof (detached_usable _ _ G) as U. pose proof (detached_det _ _ G) as D.
    apply Nat.leb_le in OK. destruct (limit_avail m a k R U) as (L1 & L2 & L3).
    destruct (r_it _ _ R k (usable_here _ _ U)) as (_ & Hix & Hca).
    apply refines_ret. rewrite (r_len _ _ R), Hix.
    rewrite wsub_mod; try lia; [|apply (r_pos _ _ R)|].
    + apply rel_local_move; auto; lia.
    + pose proof (window_bounds m a k R U). pose proof (r_oC _ _ R). pose proof (r_oP _ _ R). pose proof (r_oW _ _ R).
      pose proof (r_pos _ _ R).
      assert (HW : match k with W => shasW a = true | _ => True end) by (destruct k; auto; apply usable_W; auto).
      unfold a_avail, a_succ in *. destruct k; simpl in *; try lia; destruct (shasW a); intuition lia.
  - (* DReset *)
    pose proof (detached_usable _ _ G) as U. pose proof (detached_det _ _ G) as D.
    apply Nat.leb_le in OK. pose proof (r_pos _ _ R) as Hl.
    apply refines_ret.
    rewrite (succ_eq m a k R).
    replace (a_succ k a mod slen a) with (a_locate k (a_succ k a mod slen a) a mod slen a) at 1
      by (unfold a_locate; apply locate_mod; auto; apply Nat.mod_upper_bound; lia).
    apply rel_local_move; auto; try lia. unfold a_locate. lia.
  - apply drop_iter_refines; auto.
  - (* DropBuf *)
    replace (negb (heap m) && negb (freed m) && no_iters m) with (negb (sheap a) && negb (sfreed a) && a_no_iters a)
      by (rewrite (r_heap _ _ R), (r_freed _ _ R), (no_iters_eq _ _ R); reflexivity).
    destruct (negb (sheap a) && negb (sfreed a) && a_no_iters a); [|apply refines_bad; auto].
    split; simpl.
    + f_equal. unfold ev, a_ev. simpl. rewrite (r_owned _ _ R), (slots_ring m a R). reflexivity.
    + apply freed_refines; auto.
  - (* Resplit *)
    replace (negb (heap m) && negb (freed m) && no_iters m) with (negb (sheap a) && negb (sfreed a) && a_no_iters a)
      by (rewrite (r_heap _ _ R), (r_freed _ _ R), (no_iters_eq _ _ R); reflexivity).
    destruct (negb (sheap a) && negb (sfreed a) && a_no_iters a); [|apply refines_bad; auto].
    apply refines_ret. apply split_refines; auto.
Qed.

(** ** Constructors and whole histories *)
Theorem init_refines c :
  match init c, a_init c with
  | Some m, Some a => Rel m a
  | None, None => True
  | _, _ => False
  end.
Proof.
  unfold init, a_init. destruct (length (c_init c)) as [|n] eqn:E; auto.
  unfold do_split. cbn [mlen slots flag heap owned freed nid tW].
  constructor; cbn -[Nat.modulo nth]; auto; try lia.
  - intros k; destruct k; cbn; rewrite Nat.mod_0_l; lia.
  - intros k; destruct k; cbn; auto. destruct (c_worker c); reflexivity.
  - intros k Hk. unfold it_of. destruct k; cbn -[Nat.modulo] in *; repeat match goal with |- _ /\ _ => split end; auto;
      try (rewrite Nat.mod_0_l; lia); try lia; destruct (c_worker c); cbn; auto; try discriminate; try lia;
      rewrite Nat.mod_0_l; lia.
  - intros k; destruct k; cbn; auto.
  - destruct (c_worker c); reflexivity.
  - destruct (c_worker c); cbn; lia.
  - intros p Hp. rewrite Nat.mod_small by lia. reflexivity.
Qed.

(** every contract-respecting history: same results, same ledger events, related final states *)
Theorem run_refines h : forall m a, Rel m a ->
  let '(a', ys, ok) := srun a h in
  ok = true -> let '(m', xs) := run m h in xs = ys /\ Rel m' a'.
Proof.
  induction h as [|o r IH]; intros m a R; simpl.
  - auto.
  - destruct (sstep a o) as [a1 y] eqn:Es.
    destruct (srun a1 r) as [[a2 ys] okr] eqn:Er.
    intros Hok. apply andb_prop in Hok as [Ho Hr].
    pose proof (step_refines m a o R Ho) as [E1 R1]. rewrite Es in *. simpl in *.
    destruct (step m o) as [m1 x] eqn:Em. simpl in *. subst y.
    specialize (IH m1 a1 R1). rewrite Er in IH. specialize (IH Hr).
    destruct (run m1 r) as [m2 xs]. destruct IH as [-> R2]. auto.
Qed.

Print Assumptions step_refines.
Print Assumptions run_refines.
Print Assumptions init_refines.
