(** * Closing the concurrency theorems against an ordering profile *)
From Coq Require Import List Arith Bool Lia.
Import ListNotations.
Require Import MRB.Model.Trace MRB.Conc.RA MRB.Conc.RAproof MRB.Conc.RAg MRB.Conc.RA3 MRB.Conc.RA3proof MRB.Conc.RA3g MRB.Conc.RA3values MRB.Conc.Drop.

Lemma profile_ok_flags p : profile_ok p = true ->
  ge_acq (p_idx_load p) = true /\ ge_rel (p_idx_store p) = true /\ ge_acq (p_alive_rmw p) = true /\ ge_rel (p_alive_rmw p) = true.
Proof.
  unfold profile_ok. intros H. repeat (apply andb_prop in H as [H ?]). auto.
Qed.

(** data-race freedom of slot accesses, for every profile whose index loads are at least Acquire and stores at least Release:
    every length, every interleaving at atomic-access granularity, every admissible (stale) read *)
Theorem race_free_3stage p : profile_ok p = true -> forall len script, 0 < len ->
  race3 (gexec3 (ge_acq (p_idx_load p)) (ge_rel (p_idx_store p)) len (ginit3 len) script) = false.
Proof. intros H. destruct (profile_ok_flags p H) as (A & B & _). apply g3_race_free; auto. Qed.

Theorem race_free_2stage p : profile_ok p = true -> forall len script, 0 < len ->
  race (gexec (ge_acq (p_idx_load p)) (ge_rel (p_idx_store p)) len (ginit len) script) = false.
Proof. intros H. destruct (profile_ok_flags p H) as (A & B & _). apply g_race_free; auto. Qed.

(** the drop protocol under every profile with an acquire-release read-modify-write *)
Theorem drop_good p : profile_ok p = true -> forall script,
  good (mkB3 true true true) (dexec (ge_acq (p_alive_rmw p)) (ge_rel (p_alive_rmw p)) (mkB3 true true true) script) = true /\
  good (mkB3 true false true) (dexec (ge_acq (p_alive_rmw p)) (ge_rel (p_alive_rmw p)) (mkB3 true false true) script) = true.
Proof.
  intros H script. destruct (profile_ok_flags p H) as (_ & _ & A & B). rewrite A, B. split; [apply drop3_good | apply drop2_good].
Qed.
