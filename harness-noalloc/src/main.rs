//! C18 in the configuration WITHOUT the `alloc` feature (`--no-default-features --features async`), where the async splits of a
//! stack buffer borrow it (`split_async(&mut self)`, `split_mut_async(&mut self)`) and can therefore be called again after the
//! previous iterators were dropped.  The verif-hooks harness cannot be built without `alloc`, so this probe states the property
//! itself on generated sessions: immediately after ANY split the availabilities sum to len-1, the consumer (and the worker) obtain
//! nothing, and a full lap of pushes / pops then behaves like on a fresh buffer.
//!   noalloc_probe <seed> <count>  ->  `ok sessions=<n>` or `MISMATCH <history> : <what>` (exit code 1)
use core::future::Future;
use core::pin::Pin;
use core::task::{Context, Poll, RawWaker, RawWakerVTable, Waker};
use mutringbuf::iterators::async_iterators::AsyncIterator;
use mutringbuf::{ConcurrentStackRB, StackSplit, MRBIterator};

fn noop_waker() -> Waker {
    fn clone(_: *const ()) -> RawWaker { RawWaker::new(core::ptr::null(), &VT) }
    fn noop(_: *const ()) {}
    static VT: RawWakerVTable = RawWakerVTable::new(clone, noop, noop, noop);
    unsafe { Waker::from_raw(RawWaker::new(core::ptr::null(), &VT)) }
}
fn poll_once<F: Future>(f: F) -> Poll<F::Output> {
    let w = noop_waker(); let mut cx = Context::from_waker(&w); let mut f = Box::pin(f); Pin::as_mut(&mut f).poll(&mut cx)
}
struct Rng(u64);
impl Rng { fn next(&mut self, n: u64) -> u64 { self.0 = self.0.wrapping_mul(6364136223846793005).wrapping_add(1442695040888963407); (self.0 >> 33) % n } }

const N: usize = 4;

/// one session on freshly split iterators; returns Err(what) when the state right after the split is not that of a fresh buffer
macro_rules! fresh_checks {
    ($h:ident, $p:ident, $c:ident, $wavail:expr) => {{
        let pa = $p.available(); let ca = $c.available(); let wa: usize = $wavail;
        if pa + wa + ca != N - 1 { return Err(format!("{}: right after the split the availabilities are P={} W={} C={}, sum {} instead of {}", $h, pa, wa, ca, pa + wa + ca, N - 1)); }
        if ca != 0 || wa != 0 { return Err(format!("{}: right after the split the consumer / worker have {} / {} items available although nothing was pushed", $h, ca, wa)); }
        if let Poll::Ready(Some(v)) = poll_once($c.pop()) { return Err(format!("{}: the consumer popped {} right after the split", $h, v)); }
    }};
}

fn session(buf: &mut ConcurrentStackRB<usize, N>, rng: &mut Rng, hist: &mut String, next: &mut usize) -> Result<(), String> {
    let kind = rng.next(4);
    match kind {
        0 => { hist.push_str("split_async["); let (mut p, mut c) = buf.split_async(); fresh_checks!(hist, p, c, 0);
               for _ in 0..(1 + rng.next(9)) {
                   if rng.next(2) == 0 { *next += 1; hist.push_str("push "); let _ = poll_once(p.push(*next)); } else { hist.push_str("pop "); let _ = poll_once(c.pop()); }
               } hist.push_str("] "); }
        1 => { hist.push_str("split_mut_async["); let (mut p, mut w, mut c) = buf.split_mut_async(); let wa = w.available(); fresh_checks!(hist, p, c, wa);
               for _ in 0..(1 + rng.next(12)) {
                   match rng.next(3) {
                       0 => { *next += 1; hist.push_str("push "); let _ = poll_once(p.push(*next)); }
                       1 => { hist.push_str("work "); let n = w.available(); if n > 0 { unsafe { w.advance(1) }; } }
                       _ => { hist.push_str("pop "); let _ = poll_once(c.pop()); }
                   }
               } hist.push_str("] "); }
        2 => { hist.push_str("split["); let (mut p, mut c) = buf.split();
               let pa = p.available(); let ca = c.available();
               if pa + ca != N - 1 || ca != 0 { return Err(format!("{}: right after the split the availabilities are P={} C={}", hist, pa, ca)); }
               for _ in 0..(1 + rng.next(9)) {
                   if rng.next(2) == 0 { *next += 1; hist.push_str("push "); let _ = p.push(*next); } else { hist.push_str("pop "); let _ = c.pop(); }
               } hist.push_str("] "); }
        _ => { hist.push_str("split_mut["); let (mut p, mut w, mut c) = buf.split_mut();
               let pa = p.available(); let wa = w.available(); let ca = c.available();
               if pa + wa + ca != N - 1 || ca != 0 || wa != 0 { return Err(format!("{}: right after the split the availabilities are P={} W={} C={}", hist, pa, wa, ca)); }
               for _ in 0..(1 + rng.next(12)) {
                   match rng.next(3) {
                       0 => { *next += 1; hist.push_str("push "); let _ = p.push(*next); }
                       1 => { hist.push_str("work "); if w.available() > 0 { unsafe { w.advance(1) }; } }
                       _ => { hist.push_str("pop "); let _ = c.pop(); }
                   }
               } hist.push_str("] "); }
    }
    Ok(())
}

fn main() {
    let a: Vec<String> = std::env::args().collect();
    let seed: u64 = a.get(1).and_then(|x| x.parse().ok()).unwrap_or(1);
    let count: usize = a.get(2).and_then(|x| x.parse().ok()).unwrap_or(200);
    let mut rng = Rng(seed.wrapping_mul(0x9E3779B97F4A7C15) ^ 0xA24BAED4963EE407);
    let mut sessions = 0usize;
    for _ in 0..count {
        let mut buf = ConcurrentStackRB::<usize, N>::default();
        let mut hist = String::new(); let mut next = 100usize;
        for _ in 0..(2 + rng.next(4)) {
            // a panic inside the crate during a session of legal operations is a departure in its own right: report the session so far
            match std::panic::catch_unwind(std::panic::AssertUnwindSafe(|| session(&mut buf, &mut rng, &mut hist, &mut next))) {
                Ok(Ok(())) => {}
                Ok(Err(w)) => { println!("MISMATCH {}", w); std::process::exit(1); }
                Err(e) => {
                    let msg = e.downcast_ref::<String>().cloned().or_else(|| e.downcast_ref::<&str>().map(|x| x.to_string())).unwrap_or_default();
                    println!("MISMATCH {}: the crate PANICKED in this split / operation: {}", hist, msg.replace('\n', " ")); std::process::exit(1);
                }
            }
            sessions += 1;
        }
    }
    println!("ok sessions={}", sessions);
}
